"""Behaviour-preserving refactorings of /repo: every check must stay silent on each of them
(tools/gen_benign.py materialises them as /verif/benign/<id>.diff and verifies the 93 tests still pass)."""

B = []


def b(bid, edits=None, renames=None, note="", only=None):
    B.append({"id": bid, "edits": edits or [], "renames": renames or [], "note": note, "only": only})


# word-boundary renames applied to every .rs file under src/
b("rename-private-fns", renames=[
    ("handle_packet", "process_packet"), ("handle_message", "process_message"), ("validate_packet_size", "check_packet_size"),
    ("handle_connack", "apply_connack"), ("retransmit", "resend_unacknowledged"), ("reset_session", "clear_session"),
    ("session_expired", "has_session_expired"), ("is_reconnect", "is_resuming"), ("tx_action_id", "request_key"),
    ("rx_action_id", "response_key"), ("linear_search_by_key", "find_by_key"), ("next_packet_id", "allocate_packet_id"),
], note="private helper functions renamed")
b("rename-ack-fn", renames=[("Self::ack::", "Self::acknowledge::"), ("async fn ack<", "async fn acknowledge<")], note="ack() renamed")
b("rename-session-fields", renames=[
    ("retrasmit_queue", "retransmit_queue"), ("awaiting_ack", "pending_acks"), ("subscriptions", "streams"), ("unreleased", "incoming_qos2"),
], note="Session fields renamed (typo fix retrasmit -> retransmit)")
b("rename-connection-fields", renames=[
    ("send_quota", "quota"), ("remote_receive_maximum", "peer_receive_maximum"), ("remote_max_packet_size", "peer_max_packet_size"),
    ("disconnection_timestamp", "disconnected_at"),
], note="Connection fields renamed")
b("rename-structs", renames=[("Session", "SessionState"), ("Connection", "Link")], only="src/client/context.rs", note="private structs renamed")
b("reorder-puback-arm", edits=[("src/client/context.rs",
   """                if connection.send_quota != connection.remote_receive_maximum {
                    connection.send_quota += 1;
                }

                utils::linear_search_by_key(&session.retrasmit_queue, action_id)
                    .and_then(|pos| session.retrasmit_queue.remove(pos));

                if let Some((_, sender)) =
                    utils::linear_search_by_key(&session.awaiting_ack, action_id)
                        .and_then(|pos| session.awaiting_ack.remove(pos))
                {
                    // The caller may have dropped the operation's future: that is not an error.
                    let _ = sender.send(Ok(rx_packet));
                }
            }
            RxPacket::Pubcomp(pubcomp) => {""",
   """                utils::linear_search_by_key(&session.retrasmit_queue, action_id)
                    .and_then(|pos| session.retrasmit_queue.remove(pos));

                if connection.send_quota != connection.remote_receive_maximum {
                    connection.send_quota += 1;
                }

                let waiter = utils::linear_search_by_key(&session.awaiting_ack, action_id)
                    .and_then(|pos| session.awaiting_ack.remove(pos));
                if let Some((_, sender)) = waiter {
                    // The caller may have dropped the operation's future: that is not an error.
                    let _ = sender.send(Ok(rx_packet));
                }
            }
            RxPacket::Pubcomp(pubcomp) => {""")], note="independent statements reordered, a temporary introduced")
b("quota-lt-instead-of-ne", edits=[("src/client/context.rs",
   """            RxPacket::Pubcomp(pubcomp) => {
                let rx_packet = RxPacket::Pubcomp(pubcomp);
                let action_id = utils::rx_action_id(&rx_packet);

                if connection.send_quota != connection.remote_receive_maximum {""",
   """            RxPacket::Pubcomp(pubcomp) => {
                let rx_packet = RxPacket::Pubcomp(pubcomp);
                let action_id = utils::rx_action_id(&rx_packet);

                if connection.send_quota < connection.remote_receive_maximum {""")], note="!= replaced by < (equivalent under the invariant)")
b("expiry-operands-swapped", edits=[("src/client/context.rs", "elapsed > connection.session_expiry_interval", "connection.session_expiry_interval < elapsed")])
b("validate-as-match", edits=[("src/client/context.rs",
   """        if connection.remote_max_packet_size.is_none()
            || packet.len() <= connection.remote_max_packet_size.unwrap() as usize
        {
            Ok(())
        } else {
            Err(MaximumPacketSizeExceeded.into())
        }""",
   """        match connection.remote_max_packet_size {
            Some(max) if packet.len() > max as usize => Err(MaximumPacketSizeExceeded.into()),
            _ => Ok(()),
        }""")], note="size predicate rewritten as a match with a guard")
b("property-len-terms-reordered", edits=[("src/codec/subscribe.rs",
   """            self.subscription_identifier
                .as_ref()
                .map(|val| val.byte_len())
                .unwrap_or(0)
                + self
                    .user_property
                    .iter()
                    .map(|val| val.byte_len())
                    .sum::<usize>(),""",
   """            self.user_property
                .iter()
                .map(|val| val.byte_len())
                .sum::<usize>()
                + self
                    .subscription_identifier
                    .as_ref()
                    .map(|val| val.byte_len())
                    .unwrap_or(0),""")], note="sum terms reordered")
b("properties-emitted-in-other-order", edits=[("src/codec/connect.rs",
   """        if let Some(val) = self.session_expiry_interval {
            encoder.encode(val)
        }

        if let Some(val) = self.receive_maximum {
            encoder.encode(val)
        }
""",
   """        if let Some(val) = self.receive_maximum {
            encoder.encode(val)
        }

        if let Some(val) = self.session_expiry_interval {
            encoder.encode(val)
        }
""")], note="two properties written in the other order (properties are unordered)")
b("handle-channel-after-encode", edits=[("src/client/handle.rs",
   """    pub async fn ping(&mut self) -> Result<(), MqttError> {
        let (sender, receiver) = oneshot::channel();

        let builder = PingreqTxBuilder::default();
        let packet = builder.build().unwrap();

        let mut buf = BytesMut::with_capacity(packet.packet_len());
        packet.encode(&mut buf);
""",
   """    pub async fn ping(&mut self) -> Result<(), MqttError> {
        let builder = PingreqTxBuilder::default();
        let packet = builder.build().unwrap();

        let mut buf = BytesMut::with_capacity(packet.packet_len());
        packet.encode(&mut buf);

        let (sender, receiver) = oneshot::channel();
""")], note="independent statements reordered in ping()")
b("remove-by-key-helper", edits=[
   ("src/client/utils.rs",
    """pub(crate) fn linear_search_by_key<K, V>(deque: &VecDeque<(K, V)>, key: K) -> Option<usize>""",
    """pub(crate) fn remove_by_key<K, V>(deque: &mut VecDeque<(K, V)>, key: K) -> Option<(K, V)>
where
    K: Copy + PartialEq,
{
    linear_search_by_key(deque, key).and_then(|pos| deque.remove(pos))
}

pub(crate) fn linear_search_by_key<K, V>(deque: &VecDeque<(K, V)>, key: K) -> Option<usize>"""),
   ("src/client/context.rs",
    """            other => {
                let action_id = utils::rx_action_id(&other);

                if let Some((_, sender)) =
                    utils::linear_search_by_key(&session.awaiting_ack, action_id)
                        .and_then(|pos| session.awaiting_ack.remove(pos))
                {""",
    """            other => {
                let action_id = utils::rx_action_id(&other);

                if let Some((_, sender)) = utils::remove_by_key(&mut session.awaiting_ack, action_id) {""")],
  note="search + remove moved into a helper")
b("release-slot-helper", edits=[
   ("src/client/context.rs",
    """    fn reset_session(session: &mut Session) {""",
    """    fn release_slot(connection: &mut Connection) {
        if connection.send_quota != connection.remote_receive_maximum {
            connection.send_quota += 1;
        }
    }

    fn reset_session(session: &mut Session) {"""),
   ("src/client/context.rs",
    """            RxPacket::Puback(puback) => {
                let rx_packet = RxPacket::Puback(puback);
                let action_id = utils::rx_action_id(&rx_packet);

                if connection.send_quota != connection.remote_receive_maximum {
                    connection.send_quota += 1;
                }
""",
    """            RxPacket::Puback(puback) => {
                let rx_packet = RxPacket::Puback(puback);
                let action_id = utils::rx_action_id(&rx_packet);

                Self::release_slot(connection);
""")], note="guarded increment moved into a helper (guard kept)")
b("iflet-to-match", edits=[("src/client/context.rs",
   """                // The acknowledgement does not depend on whether the message could be delivered.
                if let Some(packet_id) = maybe_packet_id {
                    match qos {
                        QoS::AtLeastOnce => Self::ack::<PubackReason>(tx, packet_id).await?,
                        QoS::ExactlyOnce => Self::ack::<PubrecReason>(tx, packet_id).await?,
                        _ => unreachable!("No acknowledgement for QoS==0."),
                    }
                }""",
   """                // The acknowledgement does not depend on whether the message could be delivered.
                match (qos, maybe_packet_id) {
                    (QoS::AtLeastOnce, Some(packet_id)) => Self::ack::<PubackReason>(tx, packet_id).await?,
                    (QoS::ExactlyOnce, Some(packet_id)) => Self::ack::<PubrecReason>(tx, packet_id).await?,
                    _ => {}
                }""")], note="if-let + match merged into one match on a tuple (and the unreachable! arm is gone)")
b("stream-match-rewritten", edits=[("src/client/stream.rs",
   """        match self.receiver.poll_next_unpin(cx) {
            Poll::Ready(rx_packet) => {
                if let Some(RxPacket::Publish(publish)) = rx_packet {
                    return Poll::Ready(Some(PublishData::from(publish)));
                }

                Poll::Ready(None)
            }
            Poll::Pending => Poll::Pending,
        }""",
   """        match self.receiver.poll_next_unpin(cx) {
            Poll::Ready(Some(RxPacket::Publish(publish))) => Poll::Ready(Some(PublishData::from(publish))),
            Poll::Ready(_) => Poll::Ready(None),
            Poll::Pending => Poll::Pending,
        }""")], note="nested patterns instead of if-let")
b("chunk-size-const-renamed", renames=[("DEFAULT_CHUNK_SIZE", "READ_CHUNK")], note="constant renamed")
b("packet-stream-wake-instead-of-repoll", edits=[("src/io/packet_stream.rs",
   """                    // Poll again: either the length can be parsed now, or the reader has to be
                    // polled until it returns Pending (only then is the waker registered).
                    return self.poll_next(cx);""",
   """                    // Ask to be polled again: either the length can be parsed now, or the reader has to
                    // be polled until it returns Pending (only then is the waker registered).
                    cx.waker().wake_by_ref();
                    return Poll::Pending;""")], note="explicit self-wake instead of the recursive poll")
