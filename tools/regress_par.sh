#!/bin/sh
# Parallel variant of tools/regress.sh (same verdicts; the extraction cache is locked, reports are per property).
# Usage: tools/regress_par.sh [nocorpus] [quickonly]
cd "$(dirname "$0")/.." || exit 2
rc=0
J=${VERIF_JOBS:-14}
tiers="quick thorough"
case " $* " in *" quickonly "*) tiers="quick";; esac
mkdir -p /tmp/regress-par
./check C01 quick >/dev/null 2>&1   # warm the extraction cache once
for tier in $tiers; do
  for p in C01 C02 C03 C04 C05 C06 C07 C08 C09 C10 C11 C12 C13 C14 C15 C16 C17; do echo $p; done | \
    xargs -P $J -I{} sh -c "./check {} $tier > /tmp/regress-par/{}-$tier.out 2>&1; echo \$? > /tmp/regress-par/{}-$tier.rc"
  for p in C01 C02 C03 C04 C05 C06 C07 C08 C09 C10 C11 C12 C13 C14 C15 C16 C17; do
    e=$(cat /tmp/regress-par/$p-$tier.rc)
    if [ "$e" != "0" ] || grep -q '^VIOLATION' /tmp/regress-par/$p-$tier.out; then rc=1; echo "FAIL $p $tier exit=$e"; grep -A4 'violation:' /tmp/regress-par/$p-$tier.out | head -20; fi
    tail -1 /tmp/regress-par/$p-$tier.out
  done
done
python3-vt - <<'PY' || rc=1
import json, jsonschema, glob
m = json.load(open('/verif/MANIFEST.json'))
jsonschema.validate(m, json.load(open('/root/.vp/MANIFEST.schema.json')))
es = json.load(open('/root/.vp/EVIDENCE.schema.json'))
n = 0
for f in sorted(glob.glob('/verif/evidence/*.json')):
    jsonschema.validate(json.load(open(f)), es); n += 1
print("manifest valid; %d evidence files valid" % n)
PY
case " $* " in *" nocorpus "*) ;; *)
  out=$(VERIF_JOBS=$J python3 tools/eval_corpus.py all 2>&1 | tail -3); echo "$out"
  echo "$out" | grep -q "raising alarms: \[\]$" || rc=1
  # seeded changes that no check reports yet are listed in seeded/KNOWN_MISSES.txt (DESIGN 11.12); anything else missed fails
  miss=$(echo "$out" | sed -n "s/.*missed: \[\(.*\)\]$/\1/p" | tr -d "' " | tr ',' '\n' | grep -v '^$' | sort | tr '\n' ' ')
  known=$(sort seeded/KNOWN_MISSES.txt | tr '\n' ' ')
  [ "$miss" = "$known" ] || { echo "missed seeds differ from seeded/KNOWN_MISSES.txt: $miss"; rc=1; }
  echo "$out" | grep -q "expected rule missing for: \[\] ; benign mutants raising alarms: \[\]$" || rc=1
;; esac
echo "regress rc=$rc"
exit $rc
