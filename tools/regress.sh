#!/bin/sh
# Full regression of the machinery on the current /repo tree: every registered command must exit 0 without a
# VIOLATION line, evidence and manifest must validate, corpora must give seeded all caught / mutants all named /
# benign all silent.  Usage: tools/regress.sh [nocorpus]
cd "$(dirname "$0")/.." || exit 2
rc=0
for tier in quick thorough; do
  for p in C01 C02 C03 C04 C05 C06 C07 C08 C09 C10 C11 C12 C13 C14 C15 C16 C17; do
    out=$(./check $p $tier 2>&1); e=$?
    if [ $e -ne 0 ] || echo "$out" | grep -q '^VIOLATION'; then rc=1; echo "FAIL $p $tier exit=$e"; echo "$out" | grep -A4 'violation:' | head -20; fi
    echo "$out" | tail -1
  done
done
python3-vt - <<'PY' || rc=1
import json, jsonschema, glob, sys
m = json.load(open('/verif/MANIFEST.json'))
jsonschema.validate(m, json.load(open('/root/.vp/MANIFEST.schema.json')))
es = json.load(open('/root/.vp/EVIDENCE.schema.json'))
n = 0
for f in sorted(glob.glob('/verif/evidence/*.json')):
    jsonschema.validate(json.load(open(f)), es); n += 1
print("manifest valid; %d evidence files valid" % n)
PY
if [ "$1" != "nocorpus" ]; then
  out=$(python3 tools/eval_corpus.py all 2>&1 | tail -3); echo "$out"
  echo "$out" | grep -q "raising alarms: \[\]$" || rc=1
  # seeded changes that no check reports yet are listed in seeded/KNOWN_MISSES.txt (DESIGN 11.12); anything else missed fails
  miss=$(echo "$out" | sed -n "s/.*missed: \[\(.*\)\]$/\1/p" | tr -d "' " | tr ',' '\n' | grep -v '^$' | sort | tr '\n' ' ')
  known=$(sort seeded/KNOWN_MISSES.txt | tr '\n' ' ')
  [ "$miss" = "$known" ] || { echo "missed seeds differ from seeded/KNOWN_MISSES.txt: $miss"; rc=1; }
  echo "$out" | grep -q "expected rule missing for: \[\] ; benign mutants raising alarms: \[\]$" || rc=1
fi
echo "regress rc=$rc"
exit $rc
